#!/usr/bin/env python3
"""Behaviour-preserving refactorings (developer tool): the other half of testing the checks.

  tools/equiv.py import <out_dir> <PID>   verify every <out_dir>/<k>/ and keep it as equiv/<PID>-e<k>/
  tools/equiv.py eval [ids...]            run ./check against every kept refactoring

A kept refactoring is a patch written by an isolated sub-agent (given only the property text and a
private worktree) that is meant to preserve the property; verification here: the patch applies to
/repo HEAD, the 33 tests pass with it, and its demo (a property check) exits 0 both with and
without it.  Expected verdict of the property's check on the refactored tree: exit 0.  Exit 2
(cannot conclude) is tolerated but counted; exit 1 is a FALSE ALARM of the checker and must be
fixed in the checker.
"""
import json
import os
import shutil
import sys
import tempfile

sys.path.insert(0, os.path.dirname(os.path.abspath(__file__)))
import seeded as S  # noqa: E402

EQUIV = os.path.join(S.VERIF, 'equiv')


def verify(src_dir):
    patch = os.path.join(src_dir, 'patch.diff')
    demo = os.path.join(src_dir, 'demo.py')
    rec = {}
    files = [l[6:].strip() for l in open(patch) if l.startswith('+++ b/')]
    rec['files'] = files
    if not files or any(not f.startswith('plotink/') for f in files):
        rec['ok'] = False
        rec['why'] = 'patch touches files outside plotink/: %s' % files
        return rec
    wt = S.scratch_worktree()
    try:
        rc0, out0 = S.run_demo(demo, wt)
        rec['demo_clean_exit'] = rc0
        rc, out = S.sh(['git', '-C', wt, 'apply', patch])
        if rc:
            rec['ok'] = False
            rec['why'] = 'patch does not apply: ' + out[-300:]
            return rec
        ok_t, last = S.run_tests(wt)
        rec['tests_with_patch'] = last
        rc1, out1 = S.run_demo(demo, wt)
        rec['demo_patched_exit'] = rc1
        rec['ok'] = bool(ok_t and rc0 == 0 and rc1 == 0)
        if not rec['ok']:
            rec['why'] = 'tests_ok=%s demo_clean=%s demo_patched=%s %s' % (ok_t, rc0, rc1, out1[-200:])
    finally:
        S.drop_worktree(wt)
    return rec


def cmd_import(out_dir, pid):
    os.makedirs(EQUIV, exist_ok=True)
    for k in sorted(os.listdir(out_dir)):
        src = os.path.join(out_dir, k)
        if not os.path.isfile(os.path.join(src, 'patch.diff')):
            continue
        rec = verify(src)
        name = '%s-e%s' % (pid, k)
        print('%s: %s %s' % (name, 'VERIFIED' if rec['ok'] else 'REJECTED', rec.get('why', '')))
        if not rec['ok']:
            continue
        dst = os.path.join(EQUIV, name)
        os.makedirs(dst, exist_ok=True)
        shutil.copy(os.path.join(src, 'patch.diff'), dst)
        shutil.copy(os.path.join(src, 'demo.py'), dst)
        try:
            meta = json.load(open(os.path.join(src, 'meta.json')))
        except (OSError, ValueError):
            meta = {}
        meta['property'] = pid
        meta['origin'] = 'independent sub-agent given only the property text and a private worktree'
        meta['verified_by_me'] = {
            'base_commit': S.sh(['git', '-C', S.REPO, 'rev-parse', 'HEAD'])[1].strip(),
            'ran': ['git apply patch.diff in a scratch worktree of /repo HEAD',
                    'pytest -> %s' % rec['tests_with_patch'],
                    'demo.py on the patched worktree -> exit %d' % rec['demo_patched_exit'],
                    'demo.py on the clean worktree -> exit %d' % rec['demo_clean_exit']]}
        json.dump(meta, open(os.path.join(dst, 'meta.json'), 'w'), indent=1)


def eval_one(name, tier='quick'):
    d = os.path.join(EQUIV, name)
    meta = json.load(open(os.path.join(d, 'meta.json')))
    pid = meta['property']
    tmp = tempfile.mkdtemp(prefix='vf_eqeval_')
    try:
        repo, base, msg = S.patched_tree(os.path.join(d, 'patch.diff'), meta, tmp)
        if repo is None:
            return name, pid, 'PATCH-FAILED', msg
        rc, out = S.sh([os.path.join(S.VERIF, 'check'), pid, tier, '--repo', repo, '--out',
                        os.path.join(tmp, 'ev')], cwd=S.VERIF)
        inherited = S.inherited_reports(base, pid)
        left = [rk for rk in S.reported(out) if rk not in inherited]
        if rc == 1 and not left:
            # only the defect fixed in /repo since this refactoring was written
            rc = 2 if S.stopped_early(out) else 0
        verdict = {0: 'SILENT', 1: 'FALSE-ALARM', 2: 'CANNOT-CONCLUDE'}.get(rc, 'rc=%d' % rc)
        lines = [l for l in out.strip().splitlines() if l.strip() and 'conda' not in l]
        info = ''
        if rc == 1:
            info = ' | '.join(l for l in lines if ': [' in l)[:400]
        elif rc == 2:
            info = ' | '.join(l for l in lines if 'ANALYSIS-ERROR' in l or
                              'analysis stopped early' in l)[:300]
        if base != 'HEAD':
            info = (info + ' ' if info else '') + '(on base %s%s)' % (
                base, '; the inherited defect %s is reported, nothing else'
                % sorted({r for r, _ in inherited}) if verdict == 'SILENT' else '')
        return name, pid, verdict, info
    finally:
        shutil.rmtree(tmp, ignore_errors=True)


def cmd_eval(names, tier='quick'):
    from concurrent.futures import ThreadPoolExecutor
    partial = bool(names)
    if not names:
        names = sorted(n for n in os.listdir(EQUIV)
                       if os.path.isfile(os.path.join(EQUIV, n, 'meta.json')))
    with ThreadPoolExecutor(max_workers=12) as ex:
        res = list(ex.map(lambda n: eval_one(n, tier), names))
    table = {}
    if partial:
        try:
            table = json.load(open(os.path.join(EQUIV, 'RESULTS.json')))
        except (OSError, ValueError):
            table = {}
    for name, pid, verdict, info in res:
        print('%-9s %-16s %s' % (name, verdict, info))
        table[name] = {'property': pid, 'verdict': verdict, 'note': info}
    json.dump(table, open(os.path.join(EQUIV, 'RESULTS.json'), 'w'), indent=1, sort_keys=True)
    print('equiv: %d refactorings, %d silent, %d cannot-conclude, %d FALSE ALARMS' % (
        len(res), sum(1 for r in res if r[2] == 'SILENT'),
        sum(1 for r in res if r[2] == 'CANNOT-CONCLUDE'),
        sum(1 for r in res if r[2] == 'FALSE-ALARM')))


if __name__ == '__main__':
    if len(sys.argv) >= 4 and sys.argv[1] == 'import':
        cmd_import(sys.argv[2], sys.argv[3])
    elif len(sys.argv) >= 2 and sys.argv[1] == 'eval':
        cmd_eval(sys.argv[2:])
    else:
        print(__doc__)
