#!/usr/bin/env python3
"""Regenerates the table of changes seeded on refactored baselines in DESIGN.md (between the
RB-TABLE markers) from seeded_rb/*/meta.json and seeded_rb/RESULTS.json."""
import json
import os
import re

VERIF = os.path.dirname(os.path.dirname(os.path.abspath(__file__)))
res = json.load(open(os.path.join(VERIF, 'seeded_rb', 'RESULTS.json')))
rows = []
for name in sorted(res):
    meta = json.load(open(os.path.join(VERIF, 'seeded_rb', name, 'meta.json')))
    summ = re.sub(r'\s+', ' ', meta.get('summary', '')).strip()
    if len(summ) > 220:
        summ = summ[:217] + '...'
    r = res[name]
    note = r['rules_or_note']
    if r['verdict'] == 'CAUGHT':
        note = ', '.join(x for x in re.split(r', | \(', note) if re.match(r'^C\d\d-', x))
    else:
        note = re.sub(r'\s+', ' ', note)[:140]
    rows.append('| %s | %s | %s | %s | %s |' % (name, meta.get('base', ''), summ.replace('|', '/'),
                                                r['verdict'], note.replace('|', '/')))
table = ['| change | baseline | what it does (author\'s summary) | verdict | reporting rules / why not |',
         '|---|---|---|---|---|'] + rows
table.append('')
table.append('%d changes on refactored baselines: %d caught, %d missed, %d cannot-conclude.' % (
    len(rows), sum(1 for r in res.values() if r['verdict'] == 'CAUGHT'),
    sum(1 for r in res.values() if r['verdict'] == 'MISSED'),
    sum(1 for r in res.values() if r['verdict'] not in ('CAUGHT', 'MISSED'))))
p = os.path.join(VERIF, 'DESIGN.md')
s = open(p).read()
a, b = '<!-- RB-TABLE-BEGIN -->', '<!-- RB-TABLE-END -->'
if a in s and b in s:
    s = s[:s.index(a) + len(a)] + '\n' + '\n'.join(table) + '\n' + s[s.index(b):]
    open(p, 'w').write(s)
    print('DESIGN.md rb table updated: %d rows' % len(rows))
else:
    print('\n'.join(table))
